//! `pqharness scale`: the comparison counts of C05 at sizes the white-box trace cannot afford (a snapshot line of a
//! queue with 2^16 … 2^20 elements is megabytes).  No trace, no model: every probe builds a queue of `n` elements in
//! an adversarial arrangement, performs ONE operation, and prints one JSON line with the number of `Ord::cmp` calls the
//! operation made.  `bin/check` compares each count with the threshold of `tools/judge.py` (`cost_bound` /
//! `cost_slack`: twice the bound proved in PQ/Props/C05.lean plus four comparisons per element handled).  A linear
//! operation turned Θ(n log n) with a small constant — repeated insertion instead of a bottom-up rebuild — stays below
//! that threshold on the few thousand elements of the `large` stream and crosses it here.
use crate::types::*;
use priority_queue::{DoublePriorityQueue, PriorityQueue};

type P = PriorityQueue<u64, Pri>;
type D = DoublePriorityQueue<u64, Pri>;

fn emit(kind: &str, op: &str, pattern: &str, n: usize, m: usize, handled: usize, dt: u64) {
    println!(
        "{{\"kind\":\"{}\",\"op\":\"{}\",\"pattern\":\"{}\",\"n\":{},\"m\":{},\"handled\":{},\"dt\":{}}}",
        kind, op, pattern, n, m, handled, dt
    );
}

/// `n` priorities in the named arrangement (`base` shifts them so that one batch lies above another)
fn prios(pattern: &str, n: usize, base: i64, rng: &mut Rng) -> Vec<i64> {
    (0..n)
        .map(|i| match pattern {
            "asc" => base + i as i64,
            "desc" => base + (n - i) as i64,
            "const" => base,
            "alt" => base + if i % 2 == 0 { i as i64 } else { (n - i) as i64 },
            _ => base + rng.below(n as u64 * 4 + 1) as i64,
        })
        .collect()
}

fn pairs(first_key: u64, ps: &[i64]) -> Vec<(u64, Pri)> {
    ps.iter().enumerate().map(|(i, p)| (first_key + i as u64, Pri::new(*p))).collect()
}

macro_rules! probes {
    ($kind:expr, $Q:ty, $n:expr, $rng:expr, $singles:ident) => {{
        let kind: &str = $kind;
        let n: usize = $n;
        let rng: &mut Rng = $rng;
        const PATTERNS: [&str; 5] = ["asc", "desc", "const", "alt", "rand"];
        // construction
        for pat in PATTERNS {
            let v = pairs(0, &prios(pat, n, 0, rng));
            let t0 = cmp_count();
            let q = <$Q>::from(v);
            emit(kind, "from_vec", pat, n, q.len(), n, cmp_count() - t0);
            let v = pairs(0, &prios(pat, n, 0, rng));
            let t0 = cmp_count();
            let q: $Q = v.into_iter().collect();
            emit(kind, "from_iter", pat, n, q.len(), n, cmp_count() - t0);
        }
        // append: the shorter queue lies entirely above (or below) the longer one, in every arrangement; both directions
        for pat in PATTERNS {
            for (base, tag) in [(8 * n as i64, "above"), (-(8 * n as i64), "below")] {
                for self_longer in [true, false] {
                    let long = n - n / 2;
                    let short = n / 2 - (n / 2 > 1) as usize;
                    let mut a = <$Q>::from(pairs(0, &prios("rand", long, 0, rng)));
                    let mut b = <$Q>::from(pairs(long as u64, &prios(pat, short, base, rng)));
                    let before;
                    let t0;
                    if self_longer {
                        before = a.len();
                        t0 = cmp_count();
                        a.append(&mut b);
                    } else {
                        before = b.len();
                        t0 = cmp_count();
                        b.append(&mut a);
                        std::mem::swap(&mut a, &mut b);
                    }
                    let handled = if self_longer { short } else { long };
                    emit(kind, "append", &format!("{}_{}_{}", pat, tag, if self_longer { "self_longer" } else { "self_shorter" }), before, a.len(), handled, cmp_count() - t0);
                }
            }
        }
        // extend: a batch as large as the queue, new keys above / below, and a batch that only re-prioritises
        for pat in PATTERNS {
            for (base, tag) in [(8 * n as i64, "above"), (-(8 * n as i64), "below")] {
                let half = n / 2;
                let mut a = <$Q>::from(pairs(0, &prios("rand", half, 0, rng)));
                let batch = pairs(half as u64, &prios(pat, half, base, rng));
                let t0 = cmp_count();
                a.extend(batch);
                emit(kind, "extend", &format!("{}_{}_new", pat, tag), half, a.len(), half, cmp_count() - t0);
                let mut a = <$Q>::from(pairs(0, &prios("rand", half, 0, rng)));
                let batch = pairs(0, &prios(pat, half, base, rng));
                let t0 = cmp_count();
                a.extend(batch);
                emit(kind, "extend", &format!("{}_{}_present", pat, tag), half, a.len(), half, cmp_count() - t0);
            }
        }
        // retain / retain_mut / iter_mut on a queue whose heap vector is the insertion order (constant priorities: no
        // construction swap), rewritten so that the priorities rise / fall along that vector
        for pat in ["asc", "desc", "alt", "rand"] {
            let ps = prios(pat, n, 0, rng);
            let mut a = <$Q>::from(pairs(0, &prios("const", n, 0, rng)));
            let t0 = cmp_count();
            a.retain_mut(|k, p| { *p = Pri::new(ps[*k as usize]); true });
            emit(kind, "retain_mut", &format!("{}_keep_all", pat), n, a.len(), n, cmp_count() - t0);
            let mut a = <$Q>::from(pairs(0, &prios("const", n, 0, rng)));
            let t0 = cmp_count();
            a.retain_mut(|k, p| { *p = Pri::new(ps[*k as usize]); *k % 3 != 0 });
            emit(kind, "retain_mut", &format!("{}_drop_third", pat), n, a.len(), n, cmp_count() - t0);
            let mut a = <$Q>::from(pairs(0, &prios("const", n, 0, rng)));
            let t0 = cmp_count();
            for (k, p) in a.iter_mut() {
                *p = Pri::new(ps[*k as usize]);
            }
            emit(kind, "iter_mut", pat, n, a.len(), n, cmp_count() - t0);
            let mut a = <$Q>::from(pairs(0, &ps));
            let t0 = cmp_count();
            a.retain(|k, _| *k % 2 == 0);
            emit(kind, "retain", &format!("{}_drop_half", pat), n, a.len(), n, cmp_count() - t0);
            let mut a = <$Q>::from(pairs(0, &ps));
            let t0 = cmp_count();
            a.retain(|_, _| true);
            emit(kind, "retain", &format!("{}_keep_all", pat), n, a.len(), n, cmp_count() - t0);
            for keep in [0u64, 1, 5, 9] {
                let mut a = <$Q>::from(pairs(0, &ps));
                let t0 = cmp_count();
                a.retain(|k, _| *k < keep);
                emit(kind, "retain", &format!("{}_keep_first{}", pat, keep), n, a.len(), n, cmp_count() - t0);
                let mut a = <$Q>::from(pairs(0, &ps));
                let t0 = cmp_count();
                a.retain(|k, _| *k + keep >= n as u64);
                emit(kind, "retain", &format!("{}_keep_last{}", pat, keep), n, a.len(), n, cmp_count() - t0);
                let mut a = <$Q>::from(pairs(0, &ps));
                let t0 = cmp_count();
                a.retain_mut(|k, _| *k < keep);
                emit(kind, "retain_mut", &format!("{}_keep_first{}", pat, keep), n, a.len(), n, cmp_count() - t0);
            }
            let mut a = <$Q>::from(pairs(0, &ps));
            let t0 = cmp_count();
            a.retain(|k, _| *k != 0);
            emit(kind, "retain", &format!("{}_drop_one", pat), n, a.len(), n, cmp_count() - t0);
        }
        // single-element operations on n elements
        for pat in PATTERNS {
            let ps = prios(pat, n, 0, rng);
            let fresh = || <$Q>::from(pairs(0, &ps));
            let hi = 16 * n as i64;
            let lo = -(16 * n as i64);
            let last = (n - 1) as u64;
            let one = |op: &str, what: &str, f: &mut dyn FnMut(&mut $Q)| {
                let mut a = fresh();
                let before = a.len();
                let t0 = cmp_count();
                f(&mut a);
                emit(kind, op, &format!("{}_{}", pat, what), before, a.len(), 1, cmp_count() - t0);
            };
            one("push", "new_top", &mut |a| { a.push(n as u64, Pri::new(hi)); });
            one("push", "new_bottom", &mut |a| { a.push(n as u64, Pri::new(lo)); });
            for key in [0, last / 2, last] {
                one("push", &format!("present{}_to_top", key), &mut |a| { a.push(key, Pri::new(hi)); });
                one("push", &format!("present{}_to_bottom", key), &mut |a| { a.push(key, Pri::new(lo)); });
                one("change_priority", &format!("k{}_to_top", key), &mut |a| { a.change_priority(&key, Pri::new(hi)); });
                one("change_priority", &format!("k{}_to_bottom", key), &mut |a| { a.change_priority(&key, Pri::new(lo)); });
                one("change_priority_by", &format!("k{}_to_top", key), &mut |a| { a.change_priority_by(&key, |p| *p = Pri::new(hi)); });
                one("change_priority_by", &format!("k{}_to_bottom", key), &mut |a| { a.change_priority_by(&key, |p| *p = Pri::new(lo)); });
                one("push_increase", &format!("k{}_to_top", key), &mut |a| { a.push_increase(key, Pri::new(hi)); });
                one("push_decrease", &format!("k{}_to_bottom", key), &mut |a| { a.push_decrease(key, Pri::new(lo)); });
                one("remove", &format!("k{}", key), &mut |a| { a.remove(&key); });
            }
            one("push_increase", "new", &mut |a| { a.push_increase(n as u64, Pri::new(hi)); });
            one("push_decrease", "new", &mut |a| { a.push_decrease(n as u64, Pri::new(lo)); });
            $singles!(one);
        }
    }};
}

macro_rules! pq_singles {
    ($one:ident) => {
        $one("pop", "", &mut |a| { a.pop(); });
        $one("pop_if", "true", &mut |a| { a.pop_if(|_, _| true); });
        $one("pop_if", "false", &mut |a| { a.pop_if(|_, _| false); });
        $one("peek", "", &mut |a| { a.peek(); });
    };
}
macro_rules! dpq_singles {
    ($one:ident) => {
        $one("pop_min", "", &mut |a| { a.pop_min(); });
        $one("pop_max", "", &mut |a| { a.pop_max(); });
        $one("pop_min_if", "true", &mut |a| { a.pop_min_if(|_, _| true); });
        $one("pop_max_if", "true", &mut |a| { a.pop_max_if(|_, _| true); });
        $one("pop_min_if", "false", &mut |a| { a.pop_min_if(|_, _| false); });
        $one("pop_max_if", "false", &mut |a| { a.pop_max_if(|_, _| false); });
        $one("peek_min", "", &mut |a| { a.peek_min(); });
        $one("peek_max", "", &mut |a| { a.peek_max(); });
    };
}

pub fn scale(seed: u64, thorough: bool) {
    let mut rng = Rng::new(seed ^ 0x5ca1e);
    let sizes: &[usize] = if thorough { &[1 << 12, 1 << 16, 1 << 20] } else { &[1 << 12, 1 << 16] };
    for &n in sizes {
        probes!("pq", P, n, &mut rng, pq_singles);
        probes!("dpq", D, n, &mut rng, dpq_singles);
        // conversions: the target kind rebuilds
        for pat in ["asc", "desc", "rand"] {
            let a = P::from(pairs(0, &prios(pat, n, 0, &mut rng)));
            let t0 = cmp_count();
            let d: D = a.into();
            emit("pq", "convert", pat, n, d.len(), n, cmp_count() - t0);
            let t0 = cmp_count();
            let a: P = d.into();
            emit("dpq", "convert", pat, n, a.len(), n, cmp_count() - t0);
        }
    }
}
