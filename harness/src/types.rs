//! Instrumented item / priority / hasher types used to drive the real crate.
use serde::{Deserialize, Serialize};
use std::borrow::Borrow;
use std::cell::Cell;
use std::cmp::Ordering;
use std::hash::{BuildHasherDefault, Hash, Hasher};

thread_local! {
    /// number of `Ord::cmp` calls on `Pri` so far
    pub static CMP: Cell<u64> = Cell::new(0);
    /// when non-zero: the `cmp` call that makes `CMP` reach this value panics
    pub static FUSE: Cell<u64> = Cell::new(0);
    /// when non-zero: the user callback (predicate, setter, source iterator `next`) whose ordinal reaches this value panics
    pub static CBFUSE: Cell<u64> = Cell::new(0);
    /// number of user callbacks run so far
    pub static CBCOUNT: Cell<u64> = Cell::new(0);
    /// when non-zero: the `Hash::hash` / `Eq::eq` call on an item whose ordinal reaches this value panics
    pub static HKFUSE: Cell<u64> = Cell::new(0);
    pub static HKCOUNT: Cell<u64> = Cell::new(0);
    /// when non-zero: the `Clone::clone` call on an item or priority whose ordinal reaches this value panics
    pub static CLFUSE: Cell<u64> = Cell::new(0);
    pub static CLCOUNT: Cell<u64> = Cell::new(0);
    /// when non-zero: the `Drop::drop` of an item or priority whose ordinal reaches this value panics (unless the thread is
    /// already unwinding: a second panic would abort by Rust's rules, whatever the crate does)
    pub static DRFUSE: Cell<u64> = Cell::new(0);
    pub static DRCOUNT: Cell<u64> = Cell::new(0);
    /// when true (the streams), a third of the dropped `iter_mut` guards are dropped by unwinding out of client code; off in the
    /// continuation probes: on a queue that a caught panic left inconsistent `Drop for IterMut` may panic (an ordinary,
    /// allowed panic), and a panic while unwinding is an abort by Rust's rules, which the probes would misread as a crash
    pub static UNWIND_DROPS: Cell<bool> = Cell::new(true);
    /// number of live `SItem` + `Pri` values (for leak / double-drop detection)
    pub static LIVE: Cell<i64> = Cell::new(0);
    /// total number of drops observed
    pub static DROPS: Cell<u64> = Cell::new(0);
    /// when true, `LIVE`/`DROPS` accounting is on
    pub static TRACK: Cell<bool> = Cell::new(false);
}

/// called at the start of every user callback the harness passes to the crate
pub fn cb_tick() {
    let n = CBCOUNT.with(|c| {
        c.set(c.get() + 1);
        c.get()
    });
    if CBFUSE.with(|f| f.get()) == n {
        CBFUSE.with(|f| f.set(0));
        panic!("injected: callback panic");
    }
}

/// called by every `Hash::hash` and `Eq::eq` of an item
pub fn hk_tick() {
    let n = HKCOUNT.with(|c| {
        c.set(c.get() + 1);
        c.get()
    });
    if HKFUSE.with(|f| f.get()) == n {
        HKFUSE.with(|f| f.set(0));
        panic!("injected: hash/eq panic");
    }
}

/// called by every `Clone::clone` of an item or a priority
pub fn cl_tick() {
    let n = CLCOUNT.with(|c| {
        c.set(c.get() + 1);
        c.get()
    });
    if CLFUSE.with(|f| f.get()) == n {
        CLFUSE.with(|f| f.set(0));
        panic!("injected: clone panic");
    }
}

/// called by every `Drop::drop` of an item or a priority (after the live-object accounting)
pub fn dr_tick() {
    let n = DRCOUNT.with(|c| {
        c.set(c.get() + 1);
        c.get()
    });
    if DRFUSE.with(|f| f.get()) == n && !std::thread::panicking() {
        DRFUSE.with(|f| f.set(0));
        panic!("injected: drop panic");
    }
}

pub fn cmp_count() -> u64 {
    CMP.with(|c| c.get())
}

/// An item whose `Eq`/`Hash` look at `name` only; `payload` is the part that "does not take part in
/// Eq/Hash" (C12).  `Borrow<str>` gives the borrowed-key lookups.
#[derive(Debug, Serialize, Deserialize)]
#[serde(from = "SItemRaw")]
pub struct SItem {
    pub name: String,
    pub payload: u64,
}

/// deserialization goes through `SItem::new`-style accounting
#[derive(Deserialize)]
pub struct SItemRaw {
    name: String,
    payload: u64,
}
impl From<SItemRaw> for SItem {
    fn from(r: SItemRaw) -> Self {
        if TRACK.with(|t| t.get()) {
            LIVE.with(|l| l.set(l.get() + 1));
        }
        SItem { name: r.name, payload: r.payload }
    }
}

impl SItem {
    pub fn new(key: u64, payload: u64) -> Self {
        if TRACK.with(|t| t.get()) {
            LIVE.with(|l| l.set(l.get() + 1));
        }
        SItem { name: key_name(key), payload }
    }
    pub fn key(&self) -> u64 {
        self.name[1..].parse().unwrap()
    }
}
pub fn key_name(key: u64) -> String {
    format!("k{}", key)
}
impl Clone for SItem {
    fn clone(&self) -> Self {
        cl_tick();
        if TRACK.with(|t| t.get()) {
            LIVE.with(|l| l.set(l.get() + 1));
        }
        SItem { name: self.name.clone(), payload: self.payload }
    }
}
impl Drop for SItem {
    fn drop(&mut self) {
        if TRACK.with(|t| t.get()) {
            LIVE.with(|l| l.set(l.get() - 1));
            DROPS.with(|d| d.set(d.get() + 1));
        }
        dr_tick();
    }
}
impl PartialEq for SItem {
    fn eq(&self, o: &Self) -> bool {
        hk_tick();
        self.name == o.name
    }
}
impl Eq for SItem {}
impl Hash for SItem {
    fn hash<H: Hasher>(&self, h: &mut H) {
        // identical to `str`'s Hash, as `Borrow<str>` requires
        hk_tick();
        self.name.as_str().hash(h)
    }
}
impl Borrow<str> for SItem {
    fn borrow(&self) -> &str {
        &self.name
    }
}

/// A priority that counts comparisons and can be told to panic at the k-th one.
///
/// `Ord` and `Eq` look at `rank(value)` only: values at or above `TAG_BASE` carry a 3-bit tag that takes no part in
/// the order (a "payload-carrying priority": two priorities can compare `Equal` and still be distinguishable).  Below
/// `TAG_BASE` the rank is the value itself.  `rank` is monotone, so the order is a total preorder; `Eq` is consistent
/// with `Ord`.  The Lean driver (`PQ.Driver.Pr`) and `tools/judge.py` use the same function.
#[derive(Debug, Serialize, Deserialize)]
#[serde(from = "i64")]
pub struct Pri(pub i64);

pub const TAG_BASE: i64 = 1 << 40;
pub fn rank(v: i64) -> i64 {
    if v < TAG_BASE {
        v
    } else {
        TAG_BASE + (v - TAG_BASE) / 8
    }
}
/// the priority value with rank `TAG_BASE + r` and tag `t`
pub fn tagged(r: u64, t: u64) -> i64 {
    TAG_BASE + 8 * r as i64 + (t % 8) as i64
}

impl PartialEq for Pri {
    fn eq(&self, o: &Self) -> bool {
        rank(self.0) == rank(o.0)
    }
}
impl Eq for Pri {}

impl From<i64> for Pri {
    fn from(v: i64) -> Self {
        Pri::new(v)
    }
}

impl Pri {
    pub fn new(v: i64) -> Self {
        if TRACK.with(|t| t.get()) {
            LIVE.with(|l| l.set(l.get() + 1));
        }
        Pri(v)
    }
}
impl Clone for Pri {
    fn clone(&self) -> Self {
        cl_tick();
        Pri::new(self.0)
    }
}
impl Drop for Pri {
    fn drop(&mut self) {
        if TRACK.with(|t| t.get()) {
            LIVE.with(|l| l.set(l.get() - 1));
            DROPS.with(|d| d.set(d.get() + 1));
        }
        dr_tick();
    }
}

impl Ord for Pri {
    fn cmp(&self, o: &Self) -> Ordering {
        let n = CMP.with(|c| {
            c.set(c.get() + 1);
            c.get()
        });
        if FUSE.with(|f| f.get()) == n {
            FUSE.with(|f| f.set(0));
            panic!("injected: cmp panic");
        }
        rank(self.0).cmp(&rank(o.0))
    }
}
impl PartialOrd for Pri {
    fn partial_cmp(&self, o: &Self) -> Option<Ordering> {
        Some(self.cmp(o))
    }
}

/// the degenerate hasher: every item collides
#[derive(Default, Clone, Copy)]
pub struct ZeroHasher;
impl Hasher for ZeroHasher {
    fn finish(&self) -> u64 {
        0
    }
    fn write(&mut self, _: &[u8]) {}
}

pub type HRandom = std::collections::hash_map::RandomState;
#[allow(deprecated)]
pub type HFixed = BuildHasherDefault<std::hash::SipHasher>;
pub type HXx = BuildHasherDefault<twox_hash::XxHash64>;
pub type HZero = BuildHasherDefault<ZeroHasher>;

/// The hashers the harness instantiates the queues with.  `new()` / `with_capacity()` exist for the default hasher only:
/// `ctor_pq` / `ctor_dpq` use them where they exist and fall back to the generic constructor otherwise.
pub trait HX: std::hash::BuildHasher + Default + Clone + std::fmt::Debug {
    fn pq_new() -> priority_queue::PriorityQueue<SItem, Pri, Self> { priority_queue::PriorityQueue::with_default_hasher() }
    fn pq_with_capacity(c: usize) -> priority_queue::PriorityQueue<SItem, Pri, Self> { priority_queue::PriorityQueue::with_capacity_and_default_hasher(c) }
    fn dpq_new() -> priority_queue::DoublePriorityQueue<SItem, Pri, Self> { priority_queue::DoublePriorityQueue::with_default_hasher() }
    fn dpq_with_capacity(c: usize) -> priority_queue::DoublePriorityQueue<SItem, Pri, Self> { priority_queue::DoublePriorityQueue::with_capacity_and_default_hasher(c) }
}
impl HX for HRandom {
    fn pq_new() -> priority_queue::PriorityQueue<SItem, Pri, Self> { priority_queue::PriorityQueue::new() }
    fn pq_with_capacity(c: usize) -> priority_queue::PriorityQueue<SItem, Pri, Self> { priority_queue::PriorityQueue::with_capacity(c) }
    fn dpq_new() -> priority_queue::DoublePriorityQueue<SItem, Pri, Self> { priority_queue::DoublePriorityQueue::new() }
    fn dpq_with_capacity(c: usize) -> priority_queue::DoublePriorityQueue<SItem, Pri, Self> { priority_queue::DoublePriorityQueue::with_capacity(c) }
}
impl HX for HFixed {}
impl HX for HXx {}
impl HX for HZero {}

/// SplitMix64: every random choice of the harness derives from one such state
#[derive(Clone)]
pub struct Rng(pub u64);
impl Rng {
    pub fn new(seed: u64) -> Self {
        Rng(seed.wrapping_mul(0x9E3779B97F4A7C15) ^ 0xD1B54A32D192ED03)
    }
    pub fn next(&mut self) -> u64 {
        self.0 = self.0.wrapping_add(0x9E3779B97F4A7C15);
        let mut z = self.0;
        z = (z ^ (z >> 30)).wrapping_mul(0xBF58476D1CE4E5B9);
        z = (z ^ (z >> 27)).wrapping_mul(0x94D049BB133111EB);
        z ^ (z >> 31)
    }
    pub fn below(&mut self, n: u64) -> u64 {
        if n == 0 {
            0
        } else {
            self.next() % n
        }
    }
    pub fn range(&mut self, lo: u64, hi: u64) -> u64 {
        lo + self.below(hi - lo + 1)
    }
    pub fn chance(&mut self, num: u64, den: u64) -> bool {
        self.below(den) < num
    }
    pub fn pick<'a, T>(&mut self, xs: &'a [T]) -> &'a T {
        &xs[self.below(xs.len() as u64) as usize]
    }
    pub fn fork(&mut self, tag: u64) -> Rng {
        Rng::new(self.next() ^ tag.wrapping_mul(0xA24BAED4963EE407))
    }
}
