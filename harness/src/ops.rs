//! The operation alphabet: text form (shared with the Lean driver), parser, and execution on the real crate.
use crate::types::*;
use priority_queue::{DoublePriorityQueue, PriorityQueue};
use std::fmt::Write as _;

#[derive(Clone, Copy, PartialEq, Eq, Debug)]
pub enum Kind {
    Pq,
    Dpq,
}
impl Kind {
    pub fn name(self) -> &'static str {
        match self {
            Kind::Pq => "pq",
            Kind::Dpq => "dpq",
        }
    }
    pub fn other(self) -> Kind {
        match self {
            Kind::Pq => Kind::Dpq,
            Kind::Dpq => Kind::Pq,
        }
    }
}

pub enum AnyQ<H> {
    Pq(PriorityQueue<SItem, Pri, H>),
    Dpq(DoublePriorityQueue<SItem, Pri, H>),
}

macro_rules! both {
    ($q:expr, $x:ident => $body:expr) => {
        match $q {
            AnyQ::Pq($x) => $body,
            AnyQ::Dpq($x) => $body,
        }
    };
}

impl<H: HX> AnyQ<H> {
    pub fn new(kind: Kind) -> Self {
        match kind {
            Kind::Pq => AnyQ::Pq(PriorityQueue::with_default_hasher()),
            Kind::Dpq => AnyQ::Dpq(DoublePriorityQueue::with_default_hasher()),
        }
    }
    pub fn kind(&self) -> Kind {
        match self {
            AnyQ::Pq(_) => Kind::Pq,
            AnyQ::Dpq(_) => Kind::Dpq,
        }
    }
    pub fn clone_q(&self) -> Self {
        match self {
            AnyQ::Pq(q) => AnyQ::Pq(q.clone()),
            AnyQ::Dpq(q) => AnyQ::Dpq(q.clone()),
        }
    }
    pub fn len(&self) -> usize {
        both!(self, q => q.len())
    }
    /// `m n (k pl p)* h n .. q n .. s size` — the white-box state through the cfg-guarded hook
    pub fn snapshot_core(&self) -> String {
        let mut out = String::new();
        let (heap, qp, size, maplen) = both!(self, q => q.verif_snapshot());
        write!(out, "m {}", maplen).unwrap();
        both!(self, q => for (i, p) in q.iter() {
            write!(out, " {} {} {}", i.key(), i.payload, p.0).unwrap();
        });
        write!(out, " h {}", heap.len()).unwrap();
        for x in &heap {
            write!(out, " {}", x).unwrap();
        }
        write!(out, " q {}", qp.len()).unwrap();
        for x in &qp {
            write!(out, " {}", x).unwrap();
        }
        write!(out, " s {}", size).unwrap();
        out
    }
    /// the core snapshot plus what the public peeks report in this state (not counted as comparisons)
    pub fn snapshot(&self) -> String {
        let mut out = self.snapshot_core();
        let saved = CMP.with(|c| c.get());
        let fuse = FUSE.with(|f| f.replace(0));
        let pk = std::panic::catch_unwind(std::panic::AssertUnwindSafe(|| match self {
            AnyQ::Pq(q) => opt_e(q.peek()),
            AnyQ::Dpq(q) => format!("{} {}", opt_e(q.peek_min()), opt_e(q.peek_max())),
        }));
        CMP.with(|c| c.set(saved));
        FUSE.with(|f| f.set(fuse));
        match pk {
            Ok(s) => write!(out, " pk {}", s).unwrap(),
            Err(_) => out.push_str(" pk panic"),
        }
        out
    }
}

pub type E = (u64, u64, i64);

#[derive(Clone, Copy, PartialEq, Eq, Debug)]
pub enum Call {
    F,
    B,
    L,
    H,
    /// `nth(k)`
    N(u8),
    /// `nth_back(k)`
    M(u8),
    /// `last()` — consumes the iterator: only as the final call
    Z,
    /// `count()` — consumes the iterator: only as the final call
    C,
}
impl Call {
    pub fn ch(self) -> String {
        match self {
            Call::F => "f".into(),
            Call::B => "b".into(),
            Call::L => "l".into(),
            Call::H => "h".into(),
            Call::N(k) => format!("n{}", k),
            Call::M(k) => format!("m{}", k),
            Call::Z => "z".into(),
            Call::C => "c".into(),
        }
    }
}

/// a write through a `(&mut I, &mut P)`
#[derive(Clone, Copy, Debug, Default)]
pub struct W {
    pub prio: Option<i64>,
    pub payload: Option<u64>,
}
impl W {
    fn line(&self) -> String {
        format!(
            "{} {} {} {}",
            self.prio.is_some() as u8,
            self.prio.unwrap_or(0),
            self.payload.is_some() as u8,
            self.payload.unwrap_or(0)
        )
    }
    fn apply(&self, i: &mut SItem, p: &mut Pri) {
        if let Some(x) = self.prio {
            p.0 = x;
        }
        if let Some(x) = self.payload {
            i.payload = x;
        }
    }
}

#[derive(Clone, Copy, Debug)]
pub struct Row {
    pub key: u64,
    pub keep: bool,
    pub w: W,
}

#[derive(Clone, Copy, PartialEq, Eq, Debug)]
pub enum Lookup {
    Owned,
    Borrowed,
}

#[derive(Clone, Debug)]
pub enum Op {
    Push(E),
    PushIncrease(E),
    PushDecrease(E),
    ChangePriority(u64, i64),
    ChangePriorityBy(u64, i64),
    GetPriority(u64),
    Get(u64),
    GetMut(u64, u64),
    Remove(u64),
    Peek,
    PeekMin,
    PeekMax,
    PeekMut(u64),
    PeekMinMut(u64),
    PeekMaxMut(u64),
    Pop,
    PopMin,
    PopMax,
    /// 0 = pop_if, 1 = pop_min_if, 2 = pop_max_if
    PopIf(u8, W, bool),
    RetainMut(Vec<Row>),
    Retain(Vec<Row>),
    /// `forget`: the guard is `mem::forget`-ten; `late`: the yielded references are collected, the guard is dropped (heap
    /// rebuilt) and only THEN the writes are performed (what `iter_mut().collect::<Vec<_>>()` allows)
    IterMut { forget: bool, late: bool, prog: Vec<(Call, W)> },
    Extend { lo: u64, hi: Option<u64>, xs: Vec<E> },
    FromIter { lo: u64, hi: Option<u64>, xs: Vec<E> },
    FromVec(Vec<E>),
    /// `append(other)`: `other` is built by pushing the pairs into a queue created `with_capacity(cap)`
    Append(u64, Vec<E>),
    Convert,
    SerdeRt(Kind),
    Deser(Vec<E>),
    Clear,
    Drain { forget: bool, calls: Vec<Call> },
    Iter(Vec<Call>),
    IntoIter(Vec<Call>),
    IntoVec,
    IntoSortedVec,
    IntoAscVec,
    IntoDescVec,
    IntoSortedIter(Vec<Call>),
    Len,
    IsEmpty,
    Reserve(u64),
    ReserveExact(u64),
    TryReserve(u64),
    TryReserveExact(u64),
    ShrinkToFit,
    Capacity,
    Eq(Vec<E>),
    CloneSwap,
    CloneCheck,
    /// `dst.clone_from(&q)` where `dst` is a clone of `q` (same hasher state) cut down to at most `keep` elements and
    /// refilled with the pairs; afterwards the queue under test IS `dst` (also when a `Clone` panicked half-way)
    CloneFrom(u64, Vec<E>),
    /// `(&q).into_iter()` / `(&mut q).into_iter()` instead of `q.iter()` / `q.iter_mut()` for the wrapped `Iter` / `IterMut`
    ViaRef(Box<Op>),
    /// replace the queue by a fresh one built by constructor `ctor` (0 `new`, 1 `with_capacity`, 2 `default`,
    /// 3 `with_default_hasher`, 4 `with_capacity_and_default_hasher`, 5 `with_hasher`, 6 `with_capacity_and_hasher`)
    Fresh(u8, u64),
    /// `format!("{:?}", q)`: reported as the (slot, item, priority) triples in the order the text lists them
    Dbg,
    /// deserialize the pairs through a `SeqAccess` that ANNOUNCES `hint` elements (whatever it then yields): formats with a
    /// length prefix take that number from untrusted input
    DeserHint(u64, Vec<E>),
    /// deserialize through a deserializer that answers `deserialize_seq` with `visit_unit` (serde's `UnitDeserializer`)
    DeserUnit,
    /// deserialize an ill-formed / ill-typed JSON text (variant `v` of a fixed table, built around the pairs): must be `Err`
    DeserBad(u8, Vec<E>),
    /// serialize into a writer that fails after `k` bytes (k < the length of the serialized text)
    SerFail(u64),
    /// `try_reserve` / `try_reserve_exact` (`exact`) in a process whose address space is limited (run by `pqharness oom`)
    TryReserveOom(bool, u64),
    /// fault injection: run `op` with the k-th priority comparison (`cmp = 1`), the k-th user callback (`0`) or the
    /// k-th `Hash`/`Eq` call on an item (`2`) panicking
    Crash { cmp: u8, k: u64, op: Box<Op> },
}

fn es(xs: &[E]) -> String {
    let mut s = format!("{}", xs.len());
    for (k, pl, p) in xs {
        write!(s, " {} {} {}", k, pl, p).unwrap();
    }
    s
}
fn calls(xs: &[Call]) -> String {
    let mut s = format!("{}", xs.len());
    for c in xs {
        s.push(' ');
        s.push_str(&c.ch());
    }
    s
}
fn rows(xs: &[Row]) -> String {
    let mut s = format!("{}", xs.len());
    for r in xs {
        write!(s, " {} {} {}", r.key, r.keep as u8, r.w.line()).unwrap();
    }
    s
}
fn optn(x: Option<u64>) -> String {
    match x {
        None => "none".into(),
        Some(n) => n.to_string(),
    }
}

impl Op {
    pub fn name(&self) -> &'static str {
        use Op::*;
        match self {
            Push(_) => "push",
            PushIncrease(_) => "push_increase",
            PushDecrease(_) => "push_decrease",
            ChangePriority(..) => "change_priority",
            ChangePriorityBy(..) => "change_priority_by",
            GetPriority(_) => "get_priority",
            Get(_) => "get",
            GetMut(..) => "get_mut",
            Remove(_) => "remove",
            Peek => "peek",
            PeekMin => "peek_min",
            PeekMax => "peek_max",
            PeekMut(_) => "peek_mut",
            PeekMinMut(_) => "peek_min_mut",
            PeekMaxMut(_) => "peek_max_mut",
            Pop => "pop",
            PopMin => "pop_min",
            PopMax => "pop_max",
            PopIf(0, ..) => "pop_if",
            PopIf(1, ..) => "pop_min_if",
            PopIf(..) => "pop_max_if",
            RetainMut(_) => "retain_mut",
            Retain(_) => "retain",
            IterMut { .. } => "iter_mut",
            Extend { .. } => "extend",
            FromIter { .. } => "from_iter",
            FromVec(_) => "from_vec",
            Append(..) => "append",
            Convert => "convert",
            SerdeRt(_) => "serde_rt",
            Deser(_) => "deser",
            Clear => "clear",
            Drain { .. } => "drain",
            Iter(_) => "iter",
            IntoIter(_) => "into_iter",
            IntoVec => "into_vec",
            IntoSortedVec => "into_sorted_vec",
            IntoAscVec => "into_asc_vec",
            IntoDescVec => "into_desc_vec",
            IntoSortedIter(_) => "into_sorted_iter",
            Len => "len",
            IsEmpty => "is_empty",
            Reserve(_) => "reserve",
            ReserveExact(_) => "reserve_exact",
            TryReserve(_) => "try_reserve",
            TryReserveExact(_) => "try_reserve_exact",
            ShrinkToFit => "shrink_to_fit",
            Capacity => "capacity",
            Eq(_) => "eq",
            CloneSwap => "clone_swap",
            CloneCheck => "clone_check",
            CloneFrom(..) => "clone_from",
            Crash { .. } => "crash",
            ViaRef(op) => op.name(),
            Fresh(..) => "fresh",
            Dbg => "dbg",
            DeserUnit => "deser_unit",
            DeserHint(..) => "deser_hint",
            DeserBad(..) => "deser_bad",
            SerFail(_) => "ser_fail",
            TryReserveOom(..) => "try_reserve_oom",
        }
    }

    /// is this operation offered by a queue of kind `k`?
    pub fn valid_for(&self, k: Kind) -> bool {
        use Op::*;
        match self {
            Peek | PeekMut(_) | Pop | IntoSortedVec | PopIf(0, ..) => k == Kind::Pq,
            PeekMin | PeekMax | PeekMinMut(_) | PeekMaxMut(_) | PopMin | PopMax | IntoAscVec | IntoDescVec => {
                k == Kind::Dpq
            }
            PopIf(..) => k == Kind::Dpq,
            Crash { op, .. } => op.valid_for(k),
            ViaRef(op) => op.valid_for(k),
            _ => true,
        }
    }

    pub fn line(&self) -> String {
        use Op::*;
        let n = self.name();
        match self {
            Crash { cmp, k, op } => format!("!{}{} {}", match *cmp { 1 => "cmp", 0 => "cb", 3 => "cl", 4 => "dr", _ => "hk" }, k, op.line()),
            CloneFrom(keep, xs) => format!("{} {} {}", n, keep, es(xs)),
            ViaRef(op) => format!("ref {}", op.line()),
            Fresh(c, cap) => format!("{} {} {}", n, c, cap),
            DeserBad(v, xs) => format!("{} {} {}", n, v, es(xs)),
            DeserHint(h, xs) => format!("{} {} {}", n, h, es(xs)),
            SerFail(k) => format!("{} {}", n, k),
            TryReserveOom(exact, k) => format!("{} {} {}", n, *exact as u8, k),
            Push(e) | PushIncrease(e) | PushDecrease(e) => format!("{} {} {} {}", n, e.0, e.1, e.2),
            ChangePriority(k, p) | ChangePriorityBy(k, p) => format!("{} {} {}", n, k, p),
            GetPriority(k) | Get(k) | Remove(k) => format!("{} {}", n, k),
            GetMut(k, pl) => format!("{} {} {}", n, k, pl),
            PeekMut(pl) | PeekMinMut(pl) | PeekMaxMut(pl) => format!("{} {}", n, pl),
            PopIf(_, w, ret) => format!("{} {} {}", n, w.line(), *ret as u8),
            RetainMut(r) | Retain(r) => format!("{} {}", n, rows(r)),
            IterMut { forget, late, prog } => {
                let mut s = format!("{} {} {}", n, if *late { "late" } else if *forget { "forget" } else { "drop" }, prog.len());
                for (c, w) in prog {
                    write!(s, " {} {}", c.ch(), w.line()).unwrap();
                }
                s
            }
            Extend { lo, hi, xs } | FromIter { lo, hi, xs } => format!("{} {} {} {}", n, lo, optn(*hi), es(xs)),
            FromVec(xs) | Deser(xs) | Eq(xs) => format!("{} {}", n, es(xs)),
            Append(cap, xs) => format!("{} {} {}", n, cap, es(xs)),
            SerdeRt(k) => format!("{} {}", n, k.name()),
            Drain { forget, calls: c } => format!("{} {} {}", n, if *forget { "forget" } else { "drop" }, calls(c)),
            Iter(c) | IntoIter(c) | IntoSortedIter(c) => format!("{} {}", n, calls(c)),
            Reserve(x) | ReserveExact(x) | TryReserve(x) | TryReserveExact(x) => format!("{} {}", n, x),
            _ => n.to_string(),
        }
    }

    pub fn parse(line: &str) -> Result<Op, String> {
        let line = line.trim();
        if let Some(rest) = line.strip_prefix('!') {
            let (head, tail) = rest.split_once(' ').ok_or("bad crash op")?;
            let (cmp, num) = if let Some(x) = head.strip_prefix("cmp") { (1u8, x) } else if let Some(x) = head.strip_prefix("cb") { (0u8, x) } else if let Some(x) = head.strip_prefix("hk") { (2u8, x) } else if let Some(x) = head.strip_prefix("cl") { (3u8, x) } else if let Some(x) = head.strip_prefix("dr") { (4u8, x) } else { return Err("bad crash prefix".into()) };
            let k: u64 = num.parse().map_err(|e| format!("{:?}", e))?;
            return Ok(Op::Crash { cmp, k, op: Box::new(Op::parse(tail)?) });
        }
        if let Some(rest) = line.strip_prefix("ref ") {
            return Ok(Op::ViaRef(Box::new(Op::parse(rest)?)));
        }
        let mut t = Toks { t: line.split_whitespace().collect(), i: 0 };
        let name = t.tok()?;
        use Op::*;
        let op = match name {
            "push" => Push(t.e()?),
            "push_increase" => PushIncrease(t.e()?),
            "push_decrease" => PushDecrease(t.e()?),
            "change_priority" => ChangePriority(t.u()?, t.i()?),
            "change_priority_by" => ChangePriorityBy(t.u()?, t.i()?),
            "get_priority" => GetPriority(t.u()?),
            "get" => Get(t.u()?),
            "get_mut" => GetMut(t.u()?, t.u()?),
            "remove" => Remove(t.u()?),
            "peek" => Peek,
            "peek_min" => PeekMin,
            "peek_max" => PeekMax,
            "peek_mut" => PeekMut(t.u()?),
            "peek_min_mut" => PeekMinMut(t.u()?),
            "peek_max_mut" => PeekMaxMut(t.u()?),
            "pop" => Pop,
            "pop_min" => PopMin,
            "pop_max" => PopMax,
            "pop_if" => PopIf(0, t.w()?, t.u()? != 0),
            "pop_min_if" => PopIf(1, t.w()?, t.u()? != 0),
            "pop_max_if" => PopIf(2, t.w()?, t.u()? != 0),
            "retain_mut" => RetainMut(t.rows()?),
            "retain" => Retain(t.rows()?),
            "iter_mut" => {
                let mode = t.tok()?;
                let forget = mode == "forget";
                let late = mode == "late";
                let n = t.u()?;
                let mut prog = vec![];
                for _ in 0..n {
                    prog.push((t.call()?, t.w()?));
                }
                IterMut { forget, late, prog }
            }
            "extend" => Extend { lo: t.u()?, hi: t.optu()?, xs: t.es()? },
            "from_iter" => FromIter { lo: t.u()?, hi: t.optu()?, xs: t.es()? },
            "from_vec" => FromVec(t.es()?),
            "append" => Append(t.u()?, t.es()?),
            "convert" => Convert,
            "serde_rt" => SerdeRt(if t.tok()? == "dpq" { Kind::Dpq } else { Kind::Pq }),
            "deser" => Deser(t.es()?),
            "clear" => Clear,
            "drain" => Drain { forget: t.tok()? == "forget", calls: t.calls()? },
            "iter" => Iter(t.calls()?),
            "into_iter" => IntoIter(t.calls()?),
            "into_vec" => IntoVec,
            "into_sorted_vec" => IntoSortedVec,
            "into_asc_vec" => IntoAscVec,
            "into_desc_vec" => IntoDescVec,
            "into_sorted_iter" => IntoSortedIter(t.calls()?),
            "len" => Len,
            "is_empty" => IsEmpty,
            "reserve" => Reserve(t.u()?),
            "reserve_exact" => ReserveExact(t.u()?),
            "try_reserve" => TryReserve(t.u()?),
            "try_reserve_exact" => TryReserveExact(t.u()?),
            "shrink_to_fit" => ShrinkToFit,
            "capacity" => Capacity,
            "eq" => Eq(t.es()?),
            "clone_swap" => CloneSwap,
            "clone_check" => CloneCheck,
            "clone_from" => CloneFrom(t.u()?, t.es()?),
            "fresh" => Fresh(t.u()? as u8, t.u()?),
            "dbg" => Dbg,
            "deser_unit" => DeserUnit,
            "deser_hint" => DeserHint(t.u()?, t.es()?),
            "deser_bad" => DeserBad(t.u()? as u8, t.es()?),
            "ser_fail" => SerFail(t.u()?),
            "try_reserve_oom" => TryReserveOom(t.u()? != 0, t.u()?),
            x => return Err(format!("unknown op {}", x)),
        };
        if t.i != t.t.len() {
            return Err(format!("trailing tokens in: {}", line));
        }
        Ok(op)
    }
}

struct Toks<'a> {
    t: Vec<&'a str>,
    i: usize,
}
impl<'a> Toks<'a> {
    fn tok(&mut self) -> Result<&'a str, String> {
        let r = self.t.get(self.i).copied().ok_or_else(|| "unexpected end".to_string());
        self.i += 1;
        r
    }
    fn u(&mut self) -> Result<u64, String> {
        self.tok()?.parse().map_err(|e| format!("{:?}", e))
    }
    fn i(&mut self) -> Result<i64, String> {
        self.tok()?.parse().map_err(|e| format!("{:?}", e))
    }
    fn optu(&mut self) -> Result<Option<u64>, String> {
        let t = self.tok()?;
        if t == "none" {
            Ok(None)
        } else {
            t.parse().map(Some).map_err(|e| format!("{:?}", e))
        }
    }
    fn e(&mut self) -> Result<E, String> {
        Ok((self.u()?, self.u()?, self.i()?))
    }
    fn es(&mut self) -> Result<Vec<E>, String> {
        let n = self.u()?;
        (0..n).map(|_| self.e()).collect()
    }
    fn w(&mut self) -> Result<W, String> {
        let wp = self.u()? != 0;
        let p = self.i()?;
        let wpl = self.u()? != 0;
        let pl = self.u()?;
        Ok(W { prio: if wp { Some(p) } else { None }, payload: if wpl { Some(pl) } else { None } })
    }
    fn call(&mut self) -> Result<Call, String> {
        Ok(match self.tok()? {
            "f" => Call::F,
            "b" => Call::B,
            "l" => Call::L,
            "h" => Call::H,
            "z" => Call::Z,
            "c" => Call::C,
            x if x.starts_with('n') => Call::N(x[1..].parse().map_err(|e| format!("{:?}", e))?),
            x if x.starts_with('m') => Call::M(x[1..].parse().map_err(|e| format!("{:?}", e))?),
            x => return Err(format!("bad call {}", x)),
        })
    }
    fn calls(&mut self) -> Result<Vec<Call>, String> {
        let n = self.u()?;
        (0..n).map(|_| self.call()).collect()
    }
    fn rows(&mut self) -> Result<Vec<Row>, String> {
        let n = self.u()?;
        (0..n)
            .map(|_| {
                let key = self.u()?;
                let keep = self.u()? != 0;
                let w = self.w()?;
                Ok(Row { key, keep, w })
            })
            .collect()
    }
}

// ---------------------------------------------------------------------------------------------
// canonical result printing (must agree with PQ/Driver.lean)

fn opt_p(x: Option<i64>) -> String {
    match x {
        None => "none".into(),
        Some(p) => format!("some {}", p),
    }
}
fn ent(i: &SItem, p: &Pri) -> String {
    format!("{} {} {}", i.key(), i.payload, p.0)
}
fn opt_e(x: Option<(&SItem, &Pri)>) -> String {
    match x {
        None => "none".into(),
        Some((i, p)) => format!("some {}", ent(i, p)),
    }
}
fn opt_eo(x: &Option<(SItem, Pri)>) -> String {
    match x {
        None => "none".into(),
        Some((i, p)) => format!("some {}", ent(i, p)),
    }
}
fn keys(v: &[SItem]) -> String {
    let mut s = format!("{}", v.len());
    for i in v {
        write!(s, " {} {}", i.key(), i.payload).unwrap();
    }
    s
}

/// an iterator with a caller-chosen `size_hint`
pub struct Hinted<I> {
    pub it: I,
    pub lo: usize,
    pub hi: Option<usize>,
}
impl<I: Iterator> Iterator for Hinted<I> {
    type Item = I::Item;
    fn next(&mut self) -> Option<I::Item> {
        cb_tick();
        self.it.next()
    }
    fn size_hint(&self) -> (usize, Option<usize>) {
        (self.lo, self.hi)
    }
}

fn mk(xs: &[E]) -> Vec<(SItem, Pri)> {
    xs.iter().map(|(k, pl, p)| (SItem::new(*k, *pl), Pri::new(*p))).collect()
}

/// `count()` through one of several std consumers that are specified to give the same number on a well-behaved iterator
/// (`count` itself, `fold`, `for_each`, `collect`, `sum`, `filter`, `enumerate().last()`): a wrong override of any of the
/// iterator methods they are built on shows as a wrong count.  `v` is derived from the call program, so replays are exact.
fn count_v<I: Iterator>(it: I, v: usize) -> usize {
    match v % 7 {
        0 => it.count(),
        1 => it.fold(0usize, |a, _| a + 1),
        2 => { let mut n = 0usize; it.for_each(|_| n += 1); n }
        3 => it.collect::<Vec<_>>().len(),
        4 => it.map(|_| 1usize).sum(),
        5 => it.filter(|_| true).count(),
        _ => it.enumerate().last().map(|(i, _)| i + 1).unwrap_or(0),
    }
}
/// the same for double-ended iterators that perform no comparisons while advancing: also from the back (`rfold`, `next_back`)
fn count_de<I: DoubleEndedIterator>(it: I, v: usize) -> usize {
    match v % 10 {
        7 => it.rev().count(),
        8 => it.rev().fold(0usize, |a, _| a + 1),
        9 => { let mut n = 0usize; it.rev().for_each(|_| n += 1); n }
        w => count_v(it, w),
    }
}
/// `last()` through consumers specified to return the same element (`last`, `fold`, `collect().pop()`, `max_by_key` with a
/// constant key returns the last of equally maximal elements)
fn last_v<I: Iterator>(it: I, v: usize) -> Option<I::Item> {
    match v % 4 {
        0 => it.last(),
        1 => it.fold(None, |_, x| Some(x)),
        2 => it.collect::<Vec<_>>().pop(),
        _ => it.max_by_key(|_| 0u8),
    }
}
fn last_de<I: DoubleEndedIterator>(it: I, v: usize) -> Option<I::Item> {
    match v % 6 {
        4 => it.rev().next(),
        5 => { let mut it = it; it.next_back() }
        w => last_v(it, w),
    }
}
/// drops `guard` while the thread is unwinding from a panic raised (and caught) in client code; `resume_unwind` does not
/// run the panic hook, `std::thread::panicking()` is true while the guard's `Drop` runs
fn drop_by_unwinding<T>(guard: T) {
    struct ClientPanic;
    let _ = std::panic::catch_unwind(std::panic::AssertUnwindSafe(move || {
        let _alive = guard;
        std::panic::resume_unwind(Box::new(ClientPanic));
    }));
}
fn variant(ncalls: usize, idx: usize) -> usize { ncalls * 7 + idx * 3 + 1 }

fn run_calls<T, I>(it: I, cs: &[Call], forget: bool, rev_ok: bool, show: impl Fn(&T) -> String) -> String
where
    I: DoubleEndedIterator<Item = T> + ExactSizeIterator,
{
    let mut out = String::new();
    let mut slot = Some(it);
    for (ci, c) in cs.iter().enumerate() {
        let v = variant(cs.len(), ci);
        let it = match slot.as_mut() {
            Some(i) => i,
            None => { out.push_str(" gone"); continue; }
        };
        match c {
            Call::F => match it.next() {
                Some(x) => write!(out, " s some {}", show(&x)).unwrap(),
                None => out.push_str(" s none"),
            },
            Call::B => match it.next_back() {
                Some(x) => write!(out, " s some {}", show(&x)).unwrap(),
                None => out.push_str(" s none"),
            },
            Call::N(k) => match it.nth(*k as usize) {
                Some(x) => write!(out, " s some {}", show(&x)).unwrap(),
                None => out.push_str(" s none"),
            },
            Call::M(k) => match it.nth_back(*k as usize) {
                Some(x) => write!(out, " s some {}", show(&x)).unwrap(),
                None => out.push_str(" s none"),
            },
            Call::L => write!(out, " l {}", it.len()).unwrap(),
            Call::H => {
                let (lo, hi) = it.size_hint();
                match hi {
                    Some(h) => write!(out, " h {} {}", lo, h).unwrap(),
                    None => write!(out, " h {} none", lo).unwrap(),
                }
            }
            Call::Z => match { let i = slot.take().unwrap(); if rev_ok { last_de(i, v) } else { last_v(i, v) } } {
                Some(x) => write!(out, " s some {}", show(&x)).unwrap(),
                None => out.push_str(" s none"),
            },
            Call::C => write!(out, " l {}", { let i = slot.take().unwrap(); if rev_ok { count_de(i, v) } else { count_v(i, v) } }).unwrap(),
        }
    }
    if forget {
        if let Some(i) = slot { std::mem::forget(i); }
    }
    out
}

fn hint_str(h: (usize, Option<usize>)) -> String {
    match h.1 {
        Some(x) => format!(" h {} {}", h.0, x),
        None => format!(" h {} none", h.0),
    }
}

/// Execute `op` on the real queue; returns the canonical result string.
pub fn apply<H: HX>(q: &mut AnyQ<H>, op: &Op, lk: Lookup) -> String {
    use Op::*;
    // lookups go either through an owned item carrying a *different* payload, or through `&str`
    macro_rules! look {
        ($q:expr, $m:ident, $k:expr $(, $a:expr)*) => {
            match lk {
                Lookup::Owned => { let probe = SItem::new($k, 424242); $q.$m(&probe $(, $a)*) }
                Lookup::Borrowed => { let name = key_name($k); $q.$m(name.as_str() $(, $a)*) }
            }
        };
    }
    match op {
        Crash { cmp, k, op } => {
            // arm the fuse relative to the current counters; the panic (if it fires) unwinds out of `apply`
            match *cmp {
                1 => FUSE.with(|f| f.set(CMP.with(|c| c.get()) + *k)),
                0 => CBFUSE.with(|f| f.set(CBCOUNT.with(|c| c.get()) + *k)),
                3 => CLFUSE.with(|f| f.set(CLCOUNT.with(|c| c.get()) + *k)),
                4 => DRFUSE.with(|f| f.set(DRCOUNT.with(|c| c.get()) + *k)),
                _ => HKFUSE.with(|f| f.set(HKCOUNT.with(|c| c.get()) + *k)),
            }
            struct Disarm;
            impl Drop for Disarm {
                fn drop(&mut self) {
                    FUSE.with(|f| f.set(0));
                    CBFUSE.with(|f| f.set(0));
                    HKFUSE.with(|f| f.set(0));
                    CLFUSE.with(|f| f.set(0));
                    DRFUSE.with(|f| f.set(0));
                }
            }
            let _d = Disarm;
            apply(q, op, lk)
        }
        ViaRef(op) => {
            VIA_REF.with(|v| v.set(true));
            struct Off;
            impl Drop for Off { fn drop(&mut self) { VIA_REF.with(|v| v.set(false)); } }
            let _o = Off;
            apply(q, op, lk)
        }
        Fresh(c, cap) => {
            let cap = *cap as usize;
            *q = match q.kind() {
                Kind::Pq => AnyQ::Pq(match c {
                    0 => H::pq_new(),
                    1 => H::pq_with_capacity(cap),
                    2 => Default::default(),
                    3 => PriorityQueue::with_default_hasher(),
                    4 => PriorityQueue::with_capacity_and_default_hasher(cap),
                    5 => PriorityQueue::with_hasher(H::default()),
                    _ => PriorityQueue::with_capacity_and_hasher(cap, H::default()),
                }),
                Kind::Dpq => AnyQ::Dpq(match c {
                    0 => H::dpq_new(),
                    1 => H::dpq_with_capacity(cap),
                    2 => Default::default(),
                    3 => DoublePriorityQueue::with_default_hasher(),
                    4 => DoublePriorityQueue::with_capacity_and_default_hasher(cap),
                    5 => DoublePriorityQueue::with_hasher(H::default()),
                    _ => DoublePriorityQueue::with_capacity_and_hasher(cap, H::default()),
                }),
            };
            cap_ok(q, if matches!(c, 1 | 4 | 6) { cap as u64 } else { 0 })
        }
        Dbg => {
            let text = match q { AnyQ::Pq(x) => format!("{:?}", x), AnyQ::Dpq(x) => format!("{:?}", x) };
            dbg_canon(&text)
        }
        DeserUnit => {
            use serde::de::value::{Error as VErr, UnitDeserializer};
            use serde::Deserialize;
            let r: Result<AnyQ<H>, VErr> = match q.kind() {
                Kind::Pq => PriorityQueue::<SItem, Pri, H>::deserialize(UnitDeserializer::<VErr>::new()).map(AnyQ::Pq),
                Kind::Dpq => DoublePriorityQueue::<SItem, Pri, H>::deserialize(UnitDeserializer::<VErr>::new()).map(AnyQ::Dpq),
            };
            match r { Ok(n) => { *q = n; "ok".into() } Err(_) => "err".into() }
        }
        DeserHint(hint, xs) => {
            use serde::Deserialize;
            let vals: Vec<serde_json::Value> = xs.iter().map(|(k, pl, p)| serde_json::json!([{"name": key_name(*k), "payload": pl}, p])).collect();
            let de = Announcing { vals, hint: *hint as usize };
            let r: Result<AnyQ<H>, serde_json::Error> = match q.kind() {
                Kind::Pq => PriorityQueue::<SItem, Pri, H>::deserialize(de).map(AnyQ::Pq),
                Kind::Dpq => DoublePriorityQueue::<SItem, Pri, H>::deserialize(de).map(AnyQ::Dpq),
            };
            match r { Ok(n) => { *q = n; "ok".into() } Err(_) => "err".into() }
        }
        DeserBad(v, xs) => {
            let text = bad_json(*v, xs);
            let before = q.snapshot_core();
            let r = deser_both(q, &text, q.kind());
            if q.snapshot_core() != before { format!("{} but the queue changed", r) } else { r }
        }
        SerFail(k) => {
            struct Failing { left: u64 }
            impl std::io::Write for Failing {
                fn write(&mut self, b: &[u8]) -> std::io::Result<usize> {
                    if self.left == 0 { return Err(std::io::Error::new(std::io::ErrorKind::Other, "injected: writer full")); }
                    let n = (b.len() as u64).min(self.left);
                    self.left -= n;
                    Ok(n as usize)
                }
                fn flush(&mut self) -> std::io::Result<()> { Ok(()) }
            }
            let full = both!(q, x => serde_json::to_string(&*x).unwrap());
            let k = *k % (full.len() as u64);     // always fails before the end (the text is at least "[]")
            let r = both!(q, x => serde_json::to_writer(Failing { left: k }, &*x));
            match r { Ok(()) => "ok".into(), Err(_) => "err".into() }
        }
        TryReserveOom(exact, n) => {
            let r = if *exact { both!(q, x => x.try_reserve_exact(*n as usize)) } else { both!(q, x => x.try_reserve(*n as usize)) };
            match r {
                Ok(()) => cap_ok(q, *n),
                Err(e) => err_ok(&e),
            }
        }
        Push(e) => opt_p(both!(q, x => x.push(SItem::new(e.0, e.1), Pri::new(e.2))).map(|p| p.0)),
        PushIncrease(e) => opt_p(both!(q, x => x.push_increase(SItem::new(e.0, e.1), Pri::new(e.2))).map(|p| p.0)),
        PushDecrease(e) => opt_p(both!(q, x => x.push_decrease(SItem::new(e.0, e.1), Pri::new(e.2))).map(|p| p.0)),
        ChangePriority(k, p) => opt_p(both!(q, x => look!(x, change_priority, *k, Pri::new(*p))).map(|p| p.0)),
        ChangePriorityBy(k, p) => {
            let p = *p;
            format!("{}", both!(q, x => look!(x, change_priority_by, *k, |r: &mut Pri| { cb_tick(); r.0 = p })))
        }
        GetPriority(k) => opt_p(both!(q, x => look!(x, get_priority, *k).map(|p| p.0))),
        Get(k) => both!(q, x => opt_e(look!(x, get, *k))),
        GetMut(k, pl) => both!(q, x => match look!(x, get_mut, *k) {
            None => "none".to_string(),
            Some((i, p)) => { let s = format!("some {}", ent(i, p)); i.payload = *pl; s }
        }),
        Remove(k) => opt_eo(&both!(q, x => look!(x, remove, *k))),
        Peek => match q { AnyQ::Pq(x) => opt_e(x.peek()), _ => unreachable!() },
        PeekMin => match q { AnyQ::Dpq(x) => opt_e(x.peek_min()), _ => unreachable!() },
        PeekMax => match q { AnyQ::Dpq(x) => opt_e(x.peek_max()), _ => unreachable!() },
        PeekMut(pl) => match q {
            AnyQ::Pq(x) => match x.peek_mut() {
                None => "none".into(),
                Some((i, p)) => { let s = format!("some {}", ent(i, p)); i.payload = *pl; s }
            },
            _ => unreachable!(),
        },
        PeekMinMut(pl) => match q {
            AnyQ::Dpq(x) => match x.peek_min_mut() {
                None => "none".into(),
                Some((i, p)) => { let s = format!("some {}", ent(i, p)); i.payload = *pl; s }
            },
            _ => unreachable!(),
        },
        PeekMaxMut(pl) => match q {
            AnyQ::Dpq(x) => match x.peek_max_mut() {
                None => "none".into(),
                Some((i, p)) => { let s = format!("some {}", ent(i, p)); i.payload = *pl; s }
            },
            _ => unreachable!(),
        },
        Pop => match q { AnyQ::Pq(x) => opt_eo(&x.pop()), _ => unreachable!() },
        PopMin => match q { AnyQ::Dpq(x) => opt_eo(&x.pop_min()), _ => unreachable!() },
        PopMax => match q { AnyQ::Dpq(x) => opt_eo(&x.pop_max()), _ => unreachable!() },
        PopIf(which, w, ret) => {
            let mut seen = "none".to_string();
            let mut ncalls = 0;
            let f = |i: &mut SItem, p: &mut Pri| {
                cb_tick();
                ncalls += 1;
                seen = format!("some {}", ent(i, p));
                w.apply(i, p);
                *ret
            };
            let r = match (q, which) {
                (AnyQ::Pq(x), 0) => x.pop_if(f),
                (AnyQ::Dpq(x), 1) => x.pop_min_if(f),
                (AnyQ::Dpq(x), _) => x.pop_max_if(f),
                _ => unreachable!(),
            };
            if ncalls > 1 {
                seen = format!("called {} times", ncalls);
            }
            format!("seen {} ret {}", seen, opt_eo(&r))
        }
        RetainMut(rows) => {
            let mut log: Vec<u64> = vec![];
            let f = |i: &mut SItem, p: &mut Pri| {
                cb_tick();
                let k = i.key();
                log.push(k);
                match rows.iter().find(|r| r.key == k) {
                    Some(r) => { r.w.apply(i, p); r.keep }
                    None => true,
                }
            };
            both!(q, x => x.retain_mut(f));
            let mut s = format!("{}", log.len());
            for k in log { write!(s, " {}", k).unwrap(); }
            s
        }
        Retain(rows) => {
            let mut log: Vec<u64> = vec![];
            let f = |i: &SItem, _p: &Pri| {
                cb_tick();
                let k = i.key();
                log.push(k);
                match rows.iter().find(|r| r.key == k) {
                    Some(r) => r.keep,
                    None => true,
                }
            };
            both!(q, x => x.retain(f));
            let mut s = format!("{}", log.len());
            for k in log { write!(s, " {}", k).unwrap(); }
            s
        }
        IterMut { forget, late, prog } => {
            // every third dropped guard is dropped by UNWINDING out of the client's loop body (a panic in the client's own code
            // while the guard is alive, caught by the client): `Drop for IterMut` must rebuild then too.  Chosen from the program
            // text, so replays are exact; never while a fuse is armed (a second panic during unwinding aborts by Rust's rules).
            let via_unwind = UNWIND_DROPS.with(|u| u.get()) && !*forget && !*late && prog.len() % 3 == 1 && FUSE.with(|f| f.get()) == 0 && CBFUSE.with(|f| f.get()) == 0
                && HKFUSE.with(|f| f.get()) == 0 && CLFUSE.with(|f| f.get()) == 0 && DRFUSE.with(|f| f.get()) == 0;
            let mut out = String::new();
            // addresses of everything yielded so far: two equal addresses = aliased `&mut`
            let mut addrs: Vec<usize> = vec![];
            let mut alias = false;
            // in `late` mode the yielded references are kept and written only after the guard is gone
            let mut kept: Vec<((&mut SItem, &mut Pri), W)> = vec![];
            macro_rules! yielded {
                ($r:expr, $w:expr) => {
                    match $r {
                        Some((i, p)) => {
                            let a = i as *mut SItem as usize;
                            if addrs.contains(&a) { alias = true; }
                            addrs.push(a);
                            write!(out, " s some {}", ent(i, p)).unwrap();
                            if *late { kept.push(((i, p), *$w)); } else { $w.apply(i, p); }
                        }
                        None => out.push_str(" s none"),
                    }
                };
            }
            match q {
                AnyQ::Pq(x) => {
                    let mut slot = Some(if VIA_REF.with(|v| v.get()) { (&mut *x).into_iter() } else { x.iter_mut() });
                    for (ci, (c, w)) in prog.iter().enumerate() {
                        let v = variant(prog.len(), ci);
                        let it = match slot.as_mut() { Some(i) => i, None => { out.push_str(" gone"); continue; } };
                        match c {
                            Call::F => yielded!(it.next(), w),
                            Call::N(k) => yielded!(it.nth(*k as usize), w),
                            Call::H => out.push_str(&hint_str(it.size_hint())),
                            // `last()` / `count()` consume the guard (rebuild happens inside); the element `last()` returns
                            // is reported but not written
                            Call::Z => match last_v(slot.take().unwrap(), v) {
                                Some((i, p)) => write!(out, " s some {}", ent(i, p)).unwrap(),
                                None => out.push_str(" s none"),
                            },
                            Call::C => write!(out, " l {}", count_v(slot.take().unwrap(), v)).unwrap(),
                            _ => out.push_str(" u"),
                        }
                    }
                    if let Some(it) = slot { if *forget { std::mem::forget(it); } else if via_unwind { drop_by_unwinding(it); } else { drop(it); } }
                }
                AnyQ::Dpq(x) => {
                    let mut slot = Some(if VIA_REF.with(|v| v.get()) { (&mut *x).into_iter() } else { x.iter_mut() });
                    for (ci, (c, w)) in prog.iter().enumerate() {
                        let v = variant(prog.len(), ci);
                        let it = match slot.as_mut() { Some(i) => i, None => { out.push_str(" gone"); continue; } };
                        match c {
                            Call::F => yielded!(it.next(), w),
                            Call::B => yielded!(it.next_back(), w),
                            Call::N(k) => yielded!(it.nth(*k as usize), w),
                            Call::M(k) => yielded!(it.nth_back(*k as usize), w),
                            Call::L => write!(out, " l {}", it.len()).unwrap(),
                            Call::H => out.push_str(&hint_str(it.size_hint())),
                            Call::Z => match last_de(slot.take().unwrap(), v) {
                                Some((i, p)) => write!(out, " s some {}", ent(i, p)).unwrap(),
                                None => out.push_str(" s none"),
                            },
                            Call::C => write!(out, " l {}", count_de(slot.take().unwrap(), v)).unwrap(),
                        }
                    }
                    if let Some(it) = slot { if *forget { std::mem::forget(it); } else if via_unwind { drop_by_unwinding(it); } else { drop(it); } }
                }
            }
            for ((i, p), w) in kept { w.apply(i, p); }
            if alias { out.push_str(" ALIASED"); }
            out
        }
        Extend { lo, hi, xs } => {
            let it = Hinted { it: mk(xs).into_iter(), lo: *lo as usize, hi: hi.map(|h| h as usize) };
            both!(q, x => x.extend(it));
            "unit".into()
        }
        FromIter { lo, hi, xs } => {
            let it = Hinted { it: mk(xs).into_iter(), lo: *lo as usize, hi: hi.map(|h| h as usize) };
            *q = match q.kind() {
                Kind::Pq => AnyQ::Pq(it.collect()),
                Kind::Dpq => AnyQ::Dpq(it.collect()),
            };
            "unit".into()
        }
        FromVec(xs) => {
            *q = match q.kind() {
                Kind::Pq => AnyQ::Pq(PriorityQueue::from(mk(xs))),
                Kind::Dpq => AnyQ::Dpq(DoublePriorityQueue::from(mk(xs))),
            };
            "unit".into()
        }
        Append(cap, xs) => match q {
            AnyQ::Pq(x) => {
                let mut o: PriorityQueue<SItem, Pri, H> = PriorityQueue::with_capacity_and_default_hasher(*cap as usize);
                // building the other queue is not part of the operation under test: an armed comparison fuse is
                // suspended while it is built and re-armed relative to the comparisons it consumed
                let (f0, c0) = (FUSE.with(|f| f.replace(0)), cmp_count());
                for (i, p) in mk(xs) { o.push(i, p); }
                if f0 != 0 { FUSE.with(|f| f.set(f0)); }
                CMP.with(|c| c.set(c0));   // comparisons spent building the other queue are not part of `append`
                x.append(&mut o);
                let (h, qp, _, m) = o.verif_snapshot();
                format!("olen {} omap {} oh {} oq {}", o.len(), m, h.len(), qp.len())
            }
            AnyQ::Dpq(x) => {
                let mut o: DoublePriorityQueue<SItem, Pri, H> = DoublePriorityQueue::with_capacity_and_default_hasher(*cap as usize);
                let (f0, c0) = (FUSE.with(|f| f.replace(0)), cmp_count());
                for (i, p) in mk(xs) { o.push(i, p); }
                if f0 != 0 { FUSE.with(|f| f.set(f0)); }
                CMP.with(|c| c.set(c0));   // comparisons spent building the other queue are not part of `append`
                x.append(&mut o);
                let (h, qp, _, m) = o.verif_snapshot();
                format!("olen {} omap {} oh {} oq {}", o.len(), m, h.len(), qp.len())
            }
        },
        Convert => {
            let old = std::mem::replace(q, AnyQ::new(Kind::Pq));
            *q = match old {
                AnyQ::Pq(x) => AnyQ::Dpq(x.into()),
                AnyQ::Dpq(x) => AnyQ::Pq(x.into()),
            };
            "unit".into()
        }
        SerdeRt(k) => {
            let text = both!(q, x => serde_json::to_string(&*x).unwrap());
            deser_both(q, &text, *k)
        }
        Deser(xs) => {
            let mut text = String::from("[");
            for (n, (k, pl, p)) in xs.iter().enumerate() {
                if n > 0 { text.push(','); }
                write!(text, "[{{\"name\":\"k{}\",\"payload\":{}}},{}]", k, pl, p).unwrap();
            }
            text.push(']');
            deser_both(q, &text, q.kind())
        }
        Clear => { both!(q, x => x.clear()); "unit".into() }
        Drain { forget, calls: cs } => both!(q, x => run_calls(x.drain(), cs, *forget, true, |(i, p): &(SItem, Pri)| ent(i, p))),
        Iter(cs) => {
            let via = VIA_REF.with(|v| v.get());
            both!(q, x => run_calls(if via { (&*x).into_iter() } else { x.iter() }, cs, false, true, |(i, p): &(&SItem, &Pri)| ent(i, p)))
        }
        IntoIter(cs) => {
            let c = q.clone_q();
            both!(c, x => run_calls(x.into_iter(), cs, false, true, |(i, p): &(SItem, Pri)| ent(i, p)))
        }
        IntoVec => { let c = q.clone_q(); keys(&both!(c, x => x.into_vec())) }
        IntoSortedVec => match q.clone_q() { AnyQ::Pq(x) => keys(&x.into_sorted_vec()), _ => unreachable!() },
        IntoAscVec => match q.clone_q() { AnyQ::Dpq(x) => keys(&x.into_ascending_sorted_vec()), _ => unreachable!() },
        IntoDescVec => match q.clone_q() { AnyQ::Dpq(x) => keys(&x.into_descending_sorted_vec()), _ => unreachable!() },
        IntoSortedIter(cs) => match q.clone_q() {
            AnyQ::Pq(x) => {
                let mut slot = Some(x.into_sorted_iter());
                let mut out = String::new();
                for (ci, c) in cs.iter().enumerate() {
                    let v = variant(cs.len(), ci);
                    let it = match slot.as_mut() { Some(i) => i, None => { out.push_str(" gone"); continue; } };
                    match c {
                        Call::F => out.push_str(&format!(" s {}", opt_eo(&it.next()))),
                        Call::N(k) => out.push_str(&format!(" s {}", opt_eo(&it.nth(*k as usize)))),
                        Call::H => out.push_str(&hint_str(it.size_hint())),
                        Call::Z => out.push_str(&format!(" s {}", opt_eo(&last_v(slot.take().unwrap(), v)))),
                        Call::C => out.push_str(&format!(" l {}", count_v(slot.take().unwrap(), v))),
                        _ => out.push_str(" u"),
                    }
                }
                out
            }
            AnyQ::Dpq(x) => run_calls(x.into_sorted_iter(), cs, false, false, |(i, p): &(SItem, Pri)| ent(i, p)),
        },
        Len => format!("{}", q.len()),
        IsEmpty => format!("{}", both!(q, x => x.is_empty())),
        Reserve(n) => {
            both!(q, x => x.reserve(*n as usize));
            cap_ok(q, *n)
        }
        ReserveExact(n) => {
            both!(q, x => x.reserve_exact(*n as usize));
            cap_ok(q, *n)
        }
        TryReserve(n) => match both!(q, x => x.try_reserve(*n as usize)) {
            Ok(()) => cap_ok(q, *n),
            Err(e) => err_ok(&e),
        },
        TryReserveExact(n) => match both!(q, x => x.try_reserve_exact(*n as usize)) {
            Ok(()) => cap_ok(q, *n),
            Err(e) => err_ok(&e),
        },
        ShrinkToFit => { both!(q, x => x.shrink_to_fit()); cap_ok(q, 0) }
        Capacity => cap_ok(q, 0),
        Eq(xs) => match q {
            AnyQ::Pq(x) => {
                // built under a different hasher instance and in a different way on purpose
                let mut o: PriorityQueue<SItem, Pri, H> = PriorityQueue::with_default_hasher();
                for (i, p) in mk(xs) { o.push(i, p); }
                let a = *x == o;
                let b = o == *x;
                if a != b { "asymmetric".into() } else { format!("{}", a) }
            }
            AnyQ::Dpq(x) => {
                let mut o: DoublePriorityQueue<SItem, Pri, H> = DoublePriorityQueue::with_default_hasher();
                for (i, p) in mk(xs) { o.push(i, p); }
                let a = *x == o;
                let b = o == *x;
                if a != b { "asymmetric".into() } else { format!("{}", a) }
            }
        },
        CloneSwap => {
            let c = q.clone_q();
            let mut old = std::mem::replace(q, c);
            // mutate and drop the original: must not affect the clone
            let saved = CMP.with(|c| c.get());
            both!(&mut old, x => { x.push(SItem::new(999_999, 1), Pri::new(7)); x.clear(); });
            drop(old);
            CMP.with(|c| c.set(saved));
            "unit".into()
        }
        CloneFrom(keep, xs) => {
            // building `dst` is not part of the operation under test: armed fuses are suspended meanwhile
            let (f0, c0) = (FUSE.with(|f| f.replace(0)), cmp_count());
            let (cf0, cc0) = (CLFUSE.with(|f| f.replace(0)), CLCOUNT.with(|c| c.get()));
            let mut dst = q.clone_q();
            while dst.len() as u64 > *keep {
                match &mut dst { AnyQ::Pq(x) => { x.pop(); } AnyQ::Dpq(x) => { x.pop_max(); } }
            }
            for (i, p) in mk(xs) { both!(&mut dst, x => { x.push(i, p); }); }
            CMP.with(|c| c.set(c0));
            CLCOUNT.with(|c| c.set(cc0));
            if f0 != 0 { FUSE.with(|f| f.set(f0)); }
            if cf0 != 0 { CLFUSE.with(|f| f.set(cf0)); }
            let r = std::panic::catch_unwind(std::panic::AssertUnwindSafe(|| match (&mut dst, &*q) {
                (AnyQ::Pq(d), AnyQ::Pq(s)) => d.clone_from(s),
                (AnyQ::Dpq(d), AnyQ::Dpq(s)) => d.clone_from(s),
                _ => unreachable!(),
            }));
            // the queue under test is `dst` from here on, whatever happened
            let old = std::mem::replace(q, dst);
            drop(old);
            if let Err(p) = r { std::panic::resume_unwind(p); }
            "unit".into()
        }
        CloneCheck => {
            let saved = CMP.with(|c| c.get());
            let before = q.snapshot();
            let mut c = q.clone_q();
            let equal = match (&*q, &c) {
                (AnyQ::Pq(a), AnyQ::Pq(b)) => a == b,
                (AnyQ::Dpq(a), AnyQ::Dpq(b)) => a == b,
                _ => false,
            };
            let same = c.snapshot() == before;
            both!(&mut c, x => { x.push(SItem::new(999_998, 1), Pri::new(i64::MAX)); });
            match &mut c { AnyQ::Pq(x) => { x.pop(); x.pop(); } AnyQ::Dpq(x) => { x.pop_min(); x.pop_max(); } }
            let untouched = q.snapshot() == before;
            drop(c);
            CMP.with(|c| c.set(saved));
            format!("{}", equal && same && untouched)
        }
    }
}

/// Deserialize `text` as a queue of kind `k` twice: from the JSON text (no length hint) and from a
/// `serde_json::Value` (whose `SeqAccess` announces an exact length); both must agree.
fn deser_both<H: HX>(q: &mut AnyQ<H>, text: &str, k: Kind) -> String {
    fn two<T: serde::de::DeserializeOwned>(text: &str) -> (Result<T, ()>, Result<T, ()>) {
        let a = serde_json::from_str::<T>(text).map_err(|_| ());
        let saved = CMP.with(|c| c.get());
        let b = serde_json::from_str::<serde_json::Value>(text).map_err(|_| ()).and_then(|v| serde_json::from_value::<T>(v).map_err(|_| ()));
        CMP.with(|c| c.set(saved));
        (a, b)
    }
    let (a, b): (Result<AnyQ<H>, ()>, Result<AnyQ<H>, ()>) = match k {
        Kind::Pq => { let (a, b) = two::<PriorityQueue<SItem, Pri, H>>(text); (a.map(AnyQ::Pq), b.map(AnyQ::Pq)) }
        Kind::Dpq => { let (a, b) = two::<DoublePriorityQueue<SItem, Pri, H>>(text); (a.map(AnyQ::Dpq), b.map(AnyQ::Dpq)) }
    };
    match (a, b) {
        (Ok(a), Ok(b)) => {
            let same = a.snapshot() == b.snapshot();
            *q = a;
            if same { "ok".into() } else { "ok-but-hinted-path-differs".into() }
        }
        (Err(_), Err(_)) => "err".into(),
        _ => "text-and-hinted-paths-disagree".into(),
    }
}

/// a deserializer for sequences only: it hands the visitor a `SeqAccess` that announces `hint` remaining elements and
/// then yields `vals` (what a format with a length prefix does when the prefix does not match the payload)
pub struct Announcing { pub vals: Vec<serde_json::Value>, pub hint: usize }
struct AnnouncingSeq { it: std::vec::IntoIter<serde_json::Value>, hint: usize }
impl<'de> serde::de::SeqAccess<'de> for AnnouncingSeq {
    type Error = serde_json::Error;
    fn next_element_seed<T: serde::de::DeserializeSeed<'de>>(&mut self, seed: T) -> Result<Option<T::Value>, Self::Error> {
        match self.it.next() {
            Some(v) => seed.deserialize(v).map(Some),
            None => Ok(None),
        }
    }
    fn size_hint(&self) -> Option<usize> { Some(self.hint) }
}
impl<'de> serde::Deserializer<'de> for Announcing {
    type Error = serde_json::Error;
    fn deserialize_any<V: serde::de::Visitor<'de>>(self, visitor: V) -> Result<V::Value, Self::Error> {
        visitor.visit_seq(AnnouncingSeq { it: self.vals.into_iter(), hint: self.hint })
    }
    serde::forward_to_deserialize_any! {
        bool i8 i16 i32 i64 i128 u8 u16 u32 u64 u128 f32 f64 char str string bytes byte_buf option unit unit_struct
        newtype_struct seq tuple tuple_struct map struct enum identifier ignored_any
    }
}

thread_local! {
    /// set while a `ViaRef` operation runs
    pub static VIA_REF: std::cell::Cell<bool> = std::cell::Cell::new(false);
}

/// a `TryReserveError` must be displayable, comparable and clonable without panicking
fn err_ok(e: &priority_queue::TryReserveError) -> String {
    let shown = format!("{}", e);
    let dbg = format!("{:?}", e);
    let is_err: &dyn std::error::Error = e;
    if shown.is_empty() || dbg.is_empty() || e.clone() != *e || is_err.to_string() != shown {
        format!("err-but-malformed-error {:?}", dbg)
    } else {
        "err".into()
    }
}

/// `{Index(3): (SItem { name: "k7", payload: 0 }, Pri(5)), …}` (possibly wrapped in `PriorityQueue { store: … }`)
/// -> `n (slot key payload prio)*`
fn dbg_canon(text: &str) -> String {
    let mut out = String::new();
    let mut n = 0;
    let mut rest = text;
    while let Some(p) = rest.find("Index(") {
        rest = &rest[p + 6..];
        let num = |s: &str| -> (String, usize) {
            let end = s.find(|c: char| !(c.is_ascii_digit() || c == '-')).unwrap_or(s.len());
            (s[..end].to_string(), end)
        };
        let (slot, _) = num(rest);
        let a = match rest.find("name: \"k") { Some(a) => a, None => return format!("unparsable {:?}", text) };
        rest = &rest[a + 8..];
        let (key, _) = num(rest);
        let b = match rest.find("payload: ") { Some(b) => b, None => return format!("unparsable {:?}", text) };
        rest = &rest[b + 9..];
        let (pl, _) = num(rest);
        let c = match rest.find("Pri(") { Some(c) => c, None => return format!("unparsable {:?}", text) };
        rest = &rest[c + 4..];
        let (pr, _) = num(rest);
        write!(out, " {} {} {} {}", slot, key, pl, pr).unwrap();
        n += 1;
    }
    format!("{}{}", n, out)
}

/// ill-formed / ill-typed JSON built around `xs` (a well-formed prefix of pairs makes the error surface only after some
/// elements were already inserted)
fn bad_json(v: u8, xs: &[E]) -> String {
    let mut good = String::new();
    for (k, pl, p) in xs.iter() {
        write!(good, "[{{\"name\":\"k{}\",\"payload\":{}}},{}],", k, pl, p).unwrap();
    }
    match v % 12 {
        0 => "5".into(),
        1 => "{}".into(),
        2 => format!("[{}[{{\"name\":\"k1\",\"payload\":0}},2]", good),            // unterminated
        3 => format!("[{}[{{\"name\":\"k1\",\"payload\":0}},\"x\"]]", good),       // priority of the wrong type
        4 => format!("[{}[{{\"name\":\"k1\"}},1]]", good),                          // item lacks a field
        5 => format!("[{}1]", good),                                                // element is not a pair
        6 => format!("[{}[{{\"name\":\"k1\",\"payload\":0}},1,2]]", good),           // triple
        7 => "".into(),
        8 => format!("[{}]", good),                                                 // trailing comma (or `[]` when xs is empty: handled by the caller's expectation)
        9 => format!("[{}[{{\"name\":\"k1\",\"payload\":0}}]]", good),               // 1-tuple
        10 => "\"A priority queue\"".into(),
        _ => format!("[{}[{{\"name\":\"k1\",\"payload\":-1}},1]]", good),            // payload out of range for u64
    }
}

fn cap_ok<H: HX>(q: &AnyQ<H>, n: u64) -> String {
    let cap = both!(q, x => x.capacity()) as u128;
    if cap >= q.len() as u128 + n as u128 {
        "capok".into()
    } else {
        format!("capbad cap={} len={} requested={}", cap, q.len(), n)
    }
}
